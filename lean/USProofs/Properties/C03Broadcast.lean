/-
  C03 — broadcasting: the term counts of `add` are exact integers.  If two shapes broadcast to `out`
  then the element count of each operand divides that of `out`, so each gradient element of an operand
  is the sum of exactly `numel(out) / numel(operand)` upstream elements (the uniform fibre size of the
  broadcast), whatever mixture of missing leading dims and size-1 dims the operand has.
-/
import USModel
import USProofs.Properties.C03

open USModel

namespace USProofs.C03

theorem prodNat_foldl (l : List ℕ) (a : ℕ) : l.foldl (· * ·) a = a * prodNat l := by
  unfold prodNat
  induction l generalizing a with
  | nil => simp
  | cons x rest ih => simp only [List.foldl_cons]; rw [ih, ih (1 * x)]; ring

theorem prodNat_cons (x : ℕ) (l : List ℕ) : prodNat (x :: l) = x * prodNat l := by
  have : prodNat (x :: l) = l.foldl (· * ·) (1 * x) := rfl
  rw [this, prodNat_foldl, Nat.one_mul]

theorem prodNat_nil : prodNat [] = 1 := rfl

theorem prodNat_append (a b : List ℕ) : prodNat (a ++ b) = prodNat a * prodNat b := by
  induction a with
  | nil => simp [prodNat_nil]
  | cons x rest ih => simp [prodNat_cons, ih, Nat.mul_assoc]

theorem prodNat_reverse (l : List ℕ) : prodNat l.reverse = prodNat l := by
  induction l with
  | nil => rfl
  | cons x rest ih => simp [prodNat_append, prodNat_cons, prodNat_nil, ih, Nat.mul_comm]

/-- on reversed (trailing-dim-first) shapes -/
theorem go_dvd : ∀ (xs ys r : List ℕ), broadcastShapes.go xs ys = some r → prodNat xs ∣ prodNat r ∧ prodNat ys ∣ prodNat r
  | [], ys, r, h => by
    simp only [broadcastShapes.go] at h
    cases h; exact ⟨by simp [prodNat_nil], dvd_refl _⟩
  | x :: xs, [], r, h => by
    simp only [broadcastShapes.go] at h
    cases h; exact ⟨dvd_refl _, by simp [prodNat_nil]⟩
  | x :: xs, y :: ys, r, h => by
    simp only [broadcastShapes.go] at h
    cases hgo : broadcastShapes.go xs ys with
    | none => simp [hgo] at h
    | some r' =>
      obtain ⟨h1, h2⟩ := go_dvd xs ys r' hgo
      simp only [hgo] at h
      by_cases hxy : x = y
      · subst hxy
        simp only [if_true] at h; cases h
        rw [prodNat_cons, prodNat_cons, prodNat_cons]
        exact ⟨Nat.mul_dvd_mul_left _ h1, Nat.mul_dvd_mul_left _ h2⟩
      · simp only [hxy, if_false] at h
        by_cases hx1 : x = 1
        · subst hx1
          simp only [if_true] at h; cases h
          rw [prodNat_cons, prodNat_cons, prodNat_cons, Nat.one_mul]
          exact ⟨Dvd.dvd.mul_left h1 _, Nat.mul_dvd_mul_left _ h2⟩
        · simp only [hx1, if_false] at h
          by_cases hy1 : y = 1
          · subst hy1
            simp only [if_true] at h; cases h
            rw [prodNat_cons, prodNat_cons, prodNat_cons, Nat.one_mul]
            exact ⟨Nat.mul_dvd_mul_left _ h1, Dvd.dvd.mul_left h2 _⟩
          · simp [hy1] at h

/-- **Broadcast fibres are uniform**: each operand's element count divides the output's. -/
theorem broadcast_dvd (a b out : List ℕ) (h : broadcastShapes a b = some out) :
    prodNat a ∣ prodNat out ∧ prodNat b ∣ prodNat out := by
  unfold broadcastShapes at h
  obtain ⟨r, hr, rfl⟩ := Option.map_eq_some_iff.mp h
  have := go_dvd a.reverse b.reverse r hr
  simpa [prodNat_reverse] using this

theorem go_pos : ∀ (xs ys r : List ℕ), broadcastShapes.go xs ys = some r → (∀ d ∈ xs, 0 < d) → (∀ d ∈ ys, 0 < d) → ∀ d ∈ r, 0 < d
  | [], ys, r, h, _, hy => by simp only [broadcastShapes.go] at h; cases h; exact hy
  | x :: xs, [], r, h, hx, _ => by simp only [broadcastShapes.go] at h; cases h; exact hx
  | x :: xs, y :: ys, r, h, hx, hy => by
    simp only [broadcastShapes.go] at h
    cases hgo : broadcastShapes.go xs ys with
    | none => simp [hgo] at h
    | some r' =>
      have ih := go_pos xs ys r' hgo (fun d hd => hx d (by simp [hd])) (fun d hd => hy d (by simp [hd]))
      simp only [hgo] at h
      have hx0 := hx x (by simp)
      have hy0 := hy y (by simp)
      split at h
      · cases h; intro d hd; rcases List.mem_cons.mp hd with rfl | hd; exact hx0; exact ih d hd
      · split at h
        · cases h; intro d hd; rcases List.mem_cons.mp hd with rfl | hd; exact hy0; exact ih d hd
        · split at h
          · cases h; intro d hd; rcases List.mem_cons.mp hd with rfl | hd; exact hx0; exact ih d hd
          · cases h

theorem prodNat_pos (l : List ℕ) (h : ∀ d ∈ l, 0 < d) : 0 < prodNat l := by
  induction l with
  | nil => simp [prodNat_nil]
  | cons x rest ih =>
    rw [prodNat_cons]
    exact Nat.mul_pos (h x (by simp)) (ih (fun d hd => h d (by simp [hd])))

/-- **`add` is unit-scaled for every pair of broadcastable non-empty shapes** (neither a single element):
    no side condition on the quotient counts is needed — they are exact and positive. -/
theorem add_unit_scale_all (a b out : List ℕ) (hb : broadcastShapes a b = some out)
    (hpa : ∀ d ∈ a, 0 < d) (hpb : ∀ d ∈ b, 0 < d) (ha1 : prodNat a ≠ 1) (hb1 : prodNat b ≠ 1) :
    ∃ s, addScales (α := ℝ) a b none = .ok s ∧ UnitScaled s (addTerms a b out) ∧
      prodNat out = prodNat a * (prodNat out / prodNat a) ∧ prodNat out = prodNat b * (prodNat out / prodNat b) := by
  obtain ⟨d1, d2⟩ := broadcast_dvd a b out hb
  have hout : 0 < prodNat out := by
    unfold broadcastShapes at hb
    obtain ⟨r, hr, rfl⟩ := Option.map_eq_some_iff.mp hb
    rw [prodNat_reverse]
    exact prodNat_pos r (go_pos a.reverse b.reverse r hr (by simpa using hpa) (by simpa using hpb))
  have hca : 0 < prodNat out / prodNat a := Nat.div_pos (Nat.le_of_dvd hout d1) (prodNat_pos a hpa)
  have hcb : 0 < prodNat out / prodNat b := Nat.div_pos (Nat.le_of_dvd hout d2) (prodNat_pos b hpb)
  obtain ⟨s, hs, hu⟩ := add_unit_scale a b out hb ha1 hb1 hca hcb
  exact ⟨s, hs, hu, (Nat.mul_div_cancel' d1).symm, (Nat.mul_div_cancel' d2).symm⟩

/-- the pattern that C03-m3 got wrong: an operand that is both lower-rank and has a size-1 dim -/
example : broadcastShapes [1, 16] [4, 8, 16] = some [4, 8, 16] := by decide
example : prodNat [4, 8, 16] / prodNat [1, 16] = 32 := by decide

end USProofs.C03
