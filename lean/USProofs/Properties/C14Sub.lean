/-
  C14 — stochastic rounding below the format's normal range (E ≤ 7) and for every input of the E ≤ 7 formats in one
  statement: the number of random draws for which `FPFormat.quantise` rounds away from zero is the integer core's
  count on the pattern the core actually sees (below the normal range: the float32-rounded down-scaled input).
-/
import USModel
import USProofs.Properties.C13Mono
import USProofs.Properties.C13E8
import USProofs.Properties.C14

open USModel USModel.F32

namespace USProofs.C13

theorem mulPow2_pos : ∀ (d r : ℕ), 0 < r → expo r + d < 255 → 0 < mulPow2 r d := by
  intro d
  induction d with
  | zero => intro r h _; simpa [mulPow2] using h
  | succ d ih =>
    intro r h hov
    have h0 : r ≠ 0 := by omega
    by_cases he : expo r = 0
    · have hr : r < 2 ^ 23 := by
        unfold expo at he
        exact (Nat.div_eq_zero_iff.mp he).resolve_left (by positivity)
      have hstep : mulPow2 r (d + 1) = mulPow2 (2 * r) d := by simp [mulPow2, h0, he]
      rw [hstep]
      have : expo (2 * r) ≤ 1 := expo_lt_of _ 1 (by omega)
      exact ih _ (by omega) (by omega)
    · rw [mulPow2_normal (d + 1) r (by omega) hov]; omega

/-- power-of-two multiplication is strictly monotone (no overflow): in particular injective -/
theorem mulPow2_strict : ∀ (d r r' : ℕ), r < r' → expo r' + d < 255 → mulPow2 r d < mulPow2 r' d := by
  intro d
  induction d with
  | zero => intro r r' h _; simpa [mulPow2] using h
  | succ d ih =>
    intro r r' h hov
    have h0' : r' ≠ 0 := by omega
    by_cases h0 : r = 0
    · subst h0
      have : mulPow2 0 (d + 1) = 0 := by simp [mulPow2]
      rw [this]; exact mulPow2_pos (d + 1) r' (by omega) hov
    by_cases he : expo r = 0
    · have hr : r < 2 ^ 23 := by
        unfold expo at he
        exact (Nat.div_eq_zero_iff.mp he).resolve_left (by positivity)
      have hstep : mulPow2 r (d + 1) = mulPow2 (2 * r) d := by simp [mulPow2, h0, he]
      by_cases he' : expo r' = 0
      · have hr' : r' < 2 ^ 23 := by
          unfold expo at he'
          exact (Nat.div_eq_zero_iff.mp he').resolve_left (by positivity)
        have hstep' : mulPow2 r' (d + 1) = mulPow2 (2 * r') d := by simp [mulPow2, h0', he']
        rw [hstep, hstep']
        have : expo (2 * r') ≤ 1 := expo_lt_of _ 1 (by omega)
        exact ih _ _ (by omega) (by omega)
      · rw [hstep, mulPow2_normal (d + 1) r' (by omega) hov]
        have := mulPow2_lt d (2 * r) (by omega) (by omega)
        obtain ⟨hlo, _⟩ := expo_bounds r'
        have : 2 ^ 23 ≤ r' := le_trans (Nat.le_mul_of_pos_left _ (by omega)) hlo
        have e : (d + 2) * 2 ^ 23 = (d + 1) * 2 ^ 23 + 2 ^ 23 := succ_mul_p23 (d + 1)
        omega
    · have hee : expo r ≤ expo r' := by unfold expo; exact Nat.div_le_div_right (le_of_lt h)
      rw [mulPow2_normal (d + 1) r (by omega) (by omega), mulPow2_normal (d + 1) r' (by omega) hov]
      omega

theorem mulPow2_ne_iff (d r r' : ℕ) (h1 : expo r + d < 255) (h2 : expo r' + d < 255) :
    (mulPow2 r d != mulPow2 r' d) = (r != r') := by
  rw [Bool.eq_iff_iff, bne_iff_ne, bne_iff_ne]
  constructor
  · intro h e; exact h (by rw [e])
  · intro h e
    rcases Nat.lt_or_gt_of_ne h with hlt | hgt
    · exact absurd e (ne_of_lt (mulPow2_strict d r r' hlt h2))
    · exact absurd e.symm (ne_of_lt (mulPow2_strict d r' r hgt h1))

end USProofs.C13

namespace USProofs.C14
open USProofs.C13

/-- **Below the format's normal range** the count of draws that round away from zero is the integer core's count on
    the float32-rounded down-scaled input — so `sr_count`, `sr_prob_exact` and `sr_prob_half_ulp` apply to it. -/
theorem countUp_sub_eq_core (E M n srbits : ℕ) (hE : 1 ≤ E) (hB : 2 ^ (E - 1) ≤ 127) (hM : M ≤ 23)
    (hsub : expo n ≤ 127 - 2 ^ (E - 1)) (hs : srbits ≤ 23 - M) :
    countUp E M srbits n =
      countUpCore (23 - M) (23 - M - srbits) (rneShift (sigOf n) (shOf E n)) := by
  unfold countUp countUpCore
  have hk : 23 - M - (23 - M - srbits) = srbits := by omega
  rw [hk]
  apply List.countP_congr
  intro r hr
  have hr' : r < 2 ^ srbits := List.mem_range.mp hr
  have h0 : (0 : ℕ) < 2 ^ (23 - M) := by positivity
  have hoff := offSR_lt M srbits r hs hr'
  have hpos : 0 < 2 ^ (E - 1) := by positivity
  unfold roundsUp roundsUpCore
  rw [quantMag_sub_eq E M n hE hB hM hsub, quantMag_sub_eq E M n hE hB hM hsub]
  obtain ⟨_, _, ha⟩ := sub_setup E M n hE hB hM hsub (offSR M srbits r) hoff
  obtain ⟨_, _, hb⟩ := sub_setup E M n hE hB hM hsub 0 h0
  have hexp : ∀ x, x ≤ 2 ^ 23 → expo x ≤ 1 := by
    intro x hx
    rcases Nat.lt_or_eq_of_le hx with h | h
    · exact le_trans (expo_lt_of x 0 (by omega)) (by omega)
    · rw [h]; unfold expo; simp
  have e1 := hexp _ ha
  have e2 := hexp _ hb
  rw [mulPow2_ne_iff _ _ _ (by omega) (by omega), offSR_eq]

/-- eight exponent bits, normal inputs below 2^126: the count is the core's count on the input's own pattern -/
theorem countUp_E8_eq_core (M n srbits : ℕ) (hM : M ≤ 23) (h1 : 1 ≤ expo n) (h2 : expo n ≤ 252)
    (hs : srbits ≤ 23 - M) :
    countUp 8 M srbits n = countUpCore (23 - M) (23 - M - srbits) n := by
  unfold countUp countUpCore
  have hk : 23 - M - (23 - M - srbits) = srbits := by omega
  rw [hk]
  apply List.countP_congr
  intro r hr
  have hr' : r < 2 ^ srbits := List.mem_range.mp hr
  have h0 : (0 : ℕ) < 2 ^ (23 - M) := by positivity
  have hoff := offSR_lt M srbits r hs hr'
  unfold roundsUp roundsUpCore
  rw [quantMag_E8_eq M _ n hM hoff h1 h2, quantMag_E8_eq M 0 n hM h0 h1 h2, offSR_eq]

end USProofs.C14
