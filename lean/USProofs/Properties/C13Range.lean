/-
  C13 — the three range properties (`max_absolute_value`, `min_absolute_normal`, `min_absolute_subnormal`) are the
  extremes of the format's value set `{ fmtVal E M e m | e < 2^E, m < 2^M }`, and the maximum is the value of the bit
  pattern the quantiser clips at.
-/
import USModel
import USProofs.Properties.C13Capstone
import Mathlib.Tactic.LinearCombination

open USModel USModel.F32

namespace USProofs.C13

theorem two_ne : (2 : ℚ) ≠ 0 := by norm_num

/-- the largest encoding (all exponent and mantissa bits set) has the value `max_absolute_value` -/
theorem max_is_top_encoding (E M : ℕ) (hE : 1 ≤ E) :
    fmtVal E M (2 ^ E - 1) (2 ^ M - 1) = maxAbsValue E M := by
  have hB : 2 ^ E = 2 * 2 ^ (E - 1) := by
    have : E = (E - 1) + 1 := by omega
    conv_lhs => rw [this, pow_succ]
    ring
  have hpos : 0 < 2 ^ (E - 1) := by positivity
  have hne : ¬ (2 ^ E - 1 = 0) := by omega
  have hM1 : 1 ≤ 2 ^ M := Nat.one_le_two_pow
  unfold fmtVal maxAbsValue
  simp only [hne, if_false]
  have hsum : ((2 ^ M + (2 ^ M - 1) : ℕ) : ℚ) = 2 * (2 : ℚ) ^ (M : ℤ) - 1 := by
    have : 2 ^ M + (2 ^ M - 1) = 2 * 2 ^ M - 1 := by omega
    rw [this, Nat.cast_sub (by omega)]; push_cast; rw [zpow_natCast]
  rw [hsum]
  have hBz : ((2 ^ (E - 1) : ℕ) : ℤ) = (2 : ℤ) ^ (E - 1) := by push_cast; rfl
  rw [← hBz]
  have hexp : (((2 ^ E - 1 : ℕ) : ℤ) - ((2 ^ (E - 1) : ℕ) : ℤ) - (M : ℤ)) = ((2 ^ (E - 1) - 1 : ℕ) : ℤ) + (-(M : ℤ)) := by
    have h1 : ((2 ^ E - 1 : ℕ) : ℤ) = 2 * ((2 ^ (E - 1) : ℕ) : ℤ) - 1 := by
      rw [Nat.cast_sub (by omega), hB]; push_cast; ring
    have h2 : ((2 ^ (E - 1) - 1 : ℕ) : ℤ) = ((2 ^ (E - 1) : ℕ) : ℤ) - 1 := by
      rw [Nat.cast_sub (by omega)]; push_cast; ring
    rw [h1, h2]; ring
  rw [hexp, zpow_add₀ two_ne]
  have hinv : (2 : ℚ) ^ (M : ℤ) * (2 : ℚ) ^ (-(M : ℤ)) = 1 := by
    rw [← zpow_add₀ two_ne]; simp
  linear_combination (2 * (2 : ℚ) ^ ((2 ^ (E - 1) - 1 : ℕ) : ℤ)) * hinv

/-- …and it is the value of the bit pattern the quantiser clips at (E ≤ 8) -/
theorem val_absmaxBits (E M : ℕ) (hE : 1 ≤ E) (hM : M ≤ 23) :
    val (absmaxBits E M) = maxAbsValue E M := by
  have hpos : 0 < 2 ^ (E - 1) := by positivity
  have hlt : (2 ^ M - 1) * 2 ^ (23 - M) < 2 ^ 23 := by
    have hs : 2 ^ M * 2 ^ (23 - M) = 2 ^ 23 := by rw [← pow_add]; congr 1; omega
    have hP : 0 < 2 ^ M := by positivity
    have hK : 0 < 2 ^ (23 - M) := by positivity
    calc (2 ^ M - 1) * 2 ^ (23 - M) < 2 ^ M * 2 ^ (23 - M) := Nat.mul_lt_mul_of_pos_right (by omega) hK
      _ = 2 ^ 23 := hs
  unfold absmaxBits
  rw [val_normal _ _ (by omega) hlt]
  unfold maxAbsValue
  have hM1 : 1 ≤ 2 ^ M := Nat.one_le_two_pow
  have hs : (2 : ℚ) ^ (23 : ℤ) = (2 : ℚ) ^ (M : ℤ) * (2 : ℚ) ^ ((23 - M : ℕ) : ℤ) := by
    rw [← zpow_add₀ two_ne]; congr 1; omega
  have e1 : ((2 ^ 23 : ℕ) : ℚ) = (2 : ℚ) ^ (23 : ℤ) := by norm_num
  have e2 : ((2 ^ M : ℕ) : ℚ) = (2 : ℚ) ^ (M : ℤ) := by rw [zpow_natCast]; exact Nat.cast_pow 2 M
  have e3 : ((2 ^ (23 - M) : ℕ) : ℚ) = (2 : ℚ) ^ ((23 - M : ℕ) : ℤ) := by rw [zpow_natCast]; exact Nat.cast_pow 2 (23 - M)
  have hc : ((2 ^ 23 + (2 ^ M - 1) * 2 ^ (23 - M) : ℕ) : ℚ) =
      (2 * (2 : ℚ) ^ (M : ℤ) - 1) * (2 : ℚ) ^ ((23 - M : ℕ) : ℤ) := by
    rw [Nat.cast_add, Nat.cast_mul, Nat.cast_sub hM1, e1, e2, e3, Nat.cast_one, hs]; ring
  rw [hc]
  have hexp : (((2 ^ (E - 1) - 1 + 127 : ℕ) : ℤ) - 150) = ((2 ^ (E - 1) - 1 : ℕ) : ℤ) + (-(M : ℤ)) + (-((23 - M : ℕ) : ℤ)) := by
    push_cast; omega
  rw [hexp, zpow_add₀ two_ne, zpow_add₀ two_ne]
  have hinv : (2 : ℚ) ^ (M : ℤ) * (2 : ℚ) ^ (-(M : ℤ)) = 1 := by
    rw [← zpow_add₀ two_ne]; simp
  have hinv2 : (2 : ℚ) ^ ((23 - M : ℕ) : ℤ) * (2 : ℚ) ^ (-((23 - M : ℕ) : ℤ)) = 1 := by
    rw [← zpow_add₀ two_ne]; simp
  linear_combination
    ((2 * (2 : ℚ) ^ (M : ℤ) - 1) * (2 : ℚ) ^ ((2 ^ (E - 1) - 1 : ℕ) : ℤ) * (2 : ℚ) ^ (-(M : ℤ))) * hinv2
      + (2 * (2 : ℚ) ^ ((2 ^ (E - 1) - 1 : ℕ) : ℤ)) * hinv

theorem zpow_le_of_le {a b : ℤ} (h : a ≤ b) : (2 : ℚ) ^ a ≤ (2 : ℚ) ^ b :=
  zpow_le_zpow_right₀ (by norm_num) h

/-- **Maximum**: no encoding has a larger value than the top one -/
theorem fmtVal_le_max (E M e m : ℕ) (hE : 1 ≤ E) (he : e ≤ 2 ^ E - 1) (hm : m ≤ 2 ^ M - 1) :
    fmtVal E M e m ≤ fmtVal E M (2 ^ E - 1) (2 ^ M - 1) := by
  have hEpos : 2 ≤ 2 ^ E := by
    calc 2 = 2 ^ 1 := by norm_num
      _ ≤ 2 ^ E := Nat.pow_le_pow_right (by norm_num) hE
  have hne : ¬ (2 ^ E - 1 = 0) := by omega
  have hM1 : 1 ≤ 2 ^ M := Nat.one_le_two_pow
  have hmq : (m : ℚ) ≤ ((2 ^ M - 1 : ℕ) : ℚ) := by exact_mod_cast hm
  unfold fmtVal
  simp only [hne, if_false]
  by_cases h0 : e = 0
  · simp only [h0, if_true]
    -- m·2^(1-B-M) ≤ (2^M + 2^M - 1)·2^(emax - B - M)
    have h1 : (m : ℚ) ≤ ((2 ^ M + (2 ^ M - 1) : ℕ) : ℚ) := by
      have : m ≤ 2 ^ M + (2 ^ M - 1) := by omega
      exact_mod_cast this
    have h2 : (2 : ℚ) ^ ((1 : ℤ) - ((2 ^ (E - 1) : ℕ) : ℤ) - (M : ℤ)) ≤
        (2 : ℚ) ^ (((2 ^ E - 1 : ℕ) : ℤ) - ((2 ^ (E - 1) : ℕ) : ℤ) - (M : ℤ)) := by
      apply zpow_le_of_le
      have : (1 : ℤ) ≤ ((2 ^ E - 1 : ℕ) : ℤ) := by
        have : 1 ≤ 2 ^ E - 1 := by omega
        exact_mod_cast this
      linarith
    exact mul_le_mul h1 h2 (by positivity) (by positivity)
  · simp only [h0, if_false]
    have h1 : ((2 ^ M + m : ℕ) : ℚ) ≤ ((2 ^ M + (2 ^ M - 1) : ℕ) : ℚ) := by
      have : 2 ^ M + m ≤ 2 ^ M + (2 ^ M - 1) := by omega
      exact_mod_cast this
    have h2 : (2 : ℚ) ^ ((e : ℤ) - ((2 ^ (E - 1) : ℕ) : ℤ) - (M : ℤ)) ≤
        (2 : ℚ) ^ (((2 ^ E - 1 : ℕ) : ℤ) - ((2 ^ (E - 1) : ℕ) : ℤ) - (M : ℤ)) := by
      apply zpow_le_of_le
      have : (e : ℤ) ≤ ((2 ^ E - 1 : ℕ) : ℤ) := by exact_mod_cast he
      linarith
    exact mul_le_mul h1 h2 (by positivity) (by positivity)

/-- **Smallest normal**: exponent field 1, mantissa 0; every normal encoding is at least that -/
theorem min_normal_spec (E M e m : ℕ) (he : 1 ≤ e) :
    fmtVal E M 1 0 = minAbsNormal E ∧ fmtVal E M 1 0 ≤ fmtVal E M e m := by
  have hne : ¬ e = 0 := by omega
  constructor
  · unfold fmtVal minAbsNormal
    simp only [show ¬ ((1 : ℕ) = 0) by norm_num, if_false, Nat.add_zero]
    push_cast
    rw [← zpow_natCast (2 : ℚ) M, ← zpow_add₀ two_ne]
    congr 1; ring
  · unfold fmtVal
    simp only [show ¬ ((1 : ℕ) = 0) by norm_num, hne, if_false, Nat.add_zero]
    have h1 : ((2 ^ M : ℕ) : ℚ) ≤ ((2 ^ M + m : ℕ) : ℚ) := by
      have : 2 ^ M ≤ 2 ^ M + m := Nat.le_add_right _ _
      exact_mod_cast this
    have h2 : (2 : ℚ) ^ (((1 : ℕ) : ℤ) - ((2 ^ (E - 1) : ℕ) : ℤ) - (M : ℤ)) ≤
        (2 : ℚ) ^ ((e : ℤ) - ((2 ^ (E - 1) : ℕ) : ℤ) - (M : ℤ)) := by
      apply zpow_le_of_le
      have : ((1 : ℕ) : ℤ) ≤ (e : ℤ) := by exact_mod_cast he
      linarith
    exact mul_le_mul h1 h2 (by positivity) (by positivity)

/-- **Smallest subnormal**: exponent field 0, mantissa 1; every non-zero subnormal encoding is at least that, and every
    subnormal is below the smallest normal -/
theorem min_subnormal_spec (E M m : ℕ) (hm : 1 ≤ m) (hm' : m < 2 ^ M) :
    fmtVal E M 0 1 = minAbsSubnormal E M ∧ fmtVal E M 0 1 ≤ fmtVal E M 0 m ∧ fmtVal E M 0 m < fmtVal E M 1 0 := by
  refine ⟨?_, ?_, ?_⟩
  · unfold fmtVal minAbsSubnormal minAbsNormal
    simp only [if_true]
    rw [← zpow_add₀ two_ne]
    push_cast
    rw [one_mul]; congr 1
  · unfold fmtVal
    simp only [if_true]
    have : ((1 : ℕ) : ℚ) ≤ (m : ℚ) := by exact_mod_cast hm
    exact mul_le_mul_of_nonneg_right this (by positivity)
  · unfold fmtVal
    simp only [if_true, show ¬ ((1 : ℕ) = 0) by norm_num, if_false, Nat.add_zero]
    have h1 : (m : ℚ) < ((2 ^ M : ℕ) : ℚ) := by exact_mod_cast hm'
    rw [show (((1 : ℕ) : ℤ)) = (1 : ℤ) from Nat.cast_one]
    exact mul_lt_mul_of_pos_right h1 (by positivity)

end USProofs.C13
