/-
  C16 — `unit_scaling_backend` returns a well-formed graph for every well-formed input graph: after all
  passes (replacement sweep, add classification, residual rewriting with its node insertions, final
  unconstraining) and the renumbering by position, every reference points to a strictly earlier node.
  This is the graph-level content of "unit_scale(module) runs without error on any module": the
  rewritten graph passes `graph.lint()` and executes in order.
-/
import USModel
import USProofs.Properties.C16Topo
import USProofs.Properties.C19Topo

open USModel

namespace USProofs.C16

theorem topoL_unconstrainPass (uct : List String) (g : IGraph) (h : TopoL g) : TopoL (unconstrainPass uct g) := by
  unfold unconstrainPass
  apply topoL_map _ _ _ h
  · intro x; split <;> rfl
  · intro x _ a ha
    split at ha
    · exact setKw_lit_inputs x.n x.n.target "constraint" "None" a ha
    · exact ha

/-- **The backend's output is a well-formed graph** (all graphs, all replacement maps, all user
    constraint-target lists). -/
theorem backend_wellformed (user : List (String × String)) (uct : List String) (g0 : Graph) (hw : g0.wellFormed = true) :
    Graph.wellFormed (unitScaleBackend user uct g0) = true := by
  unfold unitScaleBackend
  exact USProofs.C19.toGraph_wellFormed _ (topoL_unconstrainPass uct _ (topoL_of_topo (rewritten_topo user g0 hw)))

/-- non-vacuity -/
example : Graph.wellFormed (unitScaleBackend [] [] demo) = true := by decide

end USProofs.C16
