/-
  C09 — u-μP parameter tags survive any history of copies, pickling and transforms.
  Invariant by induction over the operation list (unbounded histories).
-/
import USModel

open USModel

namespace USProofs.C09

@[simp] theorem bind_ok {ε α β : Type} (a : α) (f : α → Except ε β) : (Except.ok a >>= f) = f a := rfl
@[simp] theorem bind_error {ε α β : Type} (e : ε) (f : α → Except ε β) :
    ((Except.error e : Except ε α) >>= f) = Except.error e := rfl

/-- the invariant: tagged, hooks installed, still a parameter, tags equal to the original's -/
def Inv (t : MupType) (d : Option Nat) (s : PState) : Prop :=
  s.tagged = true ∧ s.hooked = true ∧ s.isParam = true ∧ s.mupType = t ∧ s.depth = d

theorem inv_init (t : MupType) (d : Option Nat) : Inv t d (initState t d) := by
  simp [Inv, initState]

/-- every operation of the alphabet that succeeds preserves the invariant -/
theorem inv_step (t : MupType) (d : Option Nat) (s s' : PState) (o : HOp) (h : Inv t d s)
    (hs : step s o = .ok s') : Inv t d s' := by
  obtain ⟨h1, h2, h3, h4, h5⟩ := h
  cases o <;> simp only [step, deepcopyStep, pickleStep, h2, if_true] at hs <;>
    first
      | (cases hs; simp [Inv, h1, h2, h3, h4, h5])
      | (split at hs
         · cases hs
         · cases hs; simp [Inv, h1, h2, h3, h4, h5])

/-- **Every successful history, of any length.** (`inv_history_partial`: the full-strength
    statement "every history succeeds" is false on the current tree — see
    `pickle_after_transform_fails` — so the hypothesis `runHistory … = ok` is needed.) -/
theorem inv_history_partial (t : MupType) (d : Option Nat) (ops : List HOp) (s' : PState)
    (h : runHistory (initState t d) ops = .ok s') : Inv t d s' := by
  suffices hh : ∀ s, Inv t d s → runHistory s ops = .ok s' → Inv t d s' from hh _ (inv_init t d) h
  clear h
  induction ops with
  | nil => intro s hi hr; simp [runHistory] at hr; cases hr; exact hi
  | cons o os ih =>
    intro s hi hr
    simp only [runHistory] at hr
    cases hst : step s o with
    | error e => rw [hst] at hr; cases hr
    | ok s1 =>
      rw [hst] at hr
      exact ih s1 (inv_step t d s s1 o hi hst) hr

/-- A history fails only at a module pickle / save of a transformed holder. -/
theorem step_fails_iff (s : PState) (o : HOp) :
    (∃ e, step s o = .error e) ↔
      (s.holderTransformed = true ∧ (o = .pickleModule ∨ o = .saveLoadModule)) := by
  cases o <;> simp [step] <;> cases s.holderTransformed <;> simp

/-- Histories that never pickle / save a *module* always succeed (so the invariant holds for all
    of them, of any length). -/
theorem history_succeeds (ops : List HOp) (hno : ∀ o ∈ ops, o ≠ .pickleModule ∧ o ≠ .saveLoadModule)
    (s : PState) : ∃ s', runHistory s ops = .ok s' := by
  induction ops generalizing s with
  | nil => exact ⟨s, rfl⟩
  | cons o os ih =>
    have ho := hno o (by simp)
    have : ∃ s1, step s o = .ok s1 := by
      cases o <;> simp_all [step]
    obtain ⟨s1, h1⟩ := this
    obtain ⟨s', h'⟩ := ih (fun o' ho' => hno o' (by simp [ho'])) s1
    exact ⟨s', by simp [runHistory, h1, h']⟩

/-- **Finding F-C09b (counter-example to the full statement):** pickling a module returned by a
    library transform raises. -/
theorem pickle_after_transform_fails (t : MupType) (d : Option Nat) :
    runHistory (initState t d) [.applyTransform, .pickleModule] = .error .other := by
  simp [runHistory, step, deepcopyStep, initState]

/-- After any successful history the optimizer rule sees the same type and depth, hence assigns
    the same learning-rate scale as to the original (for any shape and optimizer kind). -/
theorem lr_same (k : OptKind) (t : MupType) (d : Option Nat) (ops : List HOp) (shape : List Nat)
    (s : PState) (h : runHistory (initState t d) ops = .ok s) :
    lrScale (α := Float) k s.mupType shape s.depth = lrScale k t shape d := by
  obtain ⟨_, _, _, h4, h5⟩ := inv_history_partial t d ops s h
  rw [h4, h5]

theorem deepcopyStep_rg (s : PState) : (deepcopyStep s).requiresGrad = s.requiresGrad := by
  unfold deepcopyStep; split <;> rfl
theorem pickleStep_rg (s : PState) : (pickleStep s).requiresGrad = s.requiresGrad := by
  unfold pickleStep; split <;> rfl

/-- trainability flag: only the explicit toggle changes it, and it flips it -/
theorem requires_grad_step (s s' : PState) (o : HOp) (h : step s o = .ok s') :
    s'.requiresGrad = (if o = HOp.toggleRequiresGrad then !s.requiresGrad else s.requiresGrad) := by
  cases o <;> simp only [step] at h <;> (try split at h) <;>
    cases h <;> simp [deepcopyStep_rg, pickleStep_rg]

/-- The hooks matter: *without* them the very first deep copy loses the tags (this is the state
    the unrepaired code reached after one copy: finding F-C09, now fixed). -/
theorem unhooked_copy_loses_tags (s s' : PState) (h : s.hooked = false)
    (hs : step s .deepcopyParam = .ok s') : s'.tagged = false := by
  simp [step, deepcopyStep, h] at hs
  cases hs; rfl

/-! ### Non-vacuity -/
example : ∃ s, runHistory (initState .weight (some 7))
    [.deepcopyParam, .deepcopyParam, .pickleModule, .half, .applyTransform] = .ok s ∧ Inv .weight (some 7) s := by
  obtain ⟨s, hs⟩ : ∃ s, runHistory (initState .weight (some 7))
      [.deepcopyParam, .deepcopyParam, .pickleModule, .half, .applyTransform] = .ok s := ⟨_, rfl⟩
  exact ⟨s, hs, inv_history_partial _ _ _ _ hs⟩

end USProofs.C09
