/-
  C06 — residual split/add: normalised mix, delayed branch scaling, true input gradient.

  Model: `residualSplit`, `residualAdd`, `onFirst`, `residualApply`, `residualStack`
  (`USModel/Autograd.lean`) and `residualWeights` (`USModel/Scales.lean`).  The branch is an
  arbitrary `f : DOp V V`; `V` any real inner-product space.
-/
import USProofs.RealInst
import USProofs.TrueGrad
import USProofs.Properties.C03

open USModel

namespace USProofs.C06

section algebra
variable {V : Type} [AddCommGroup V] [Module ℝ V]

/-- `residual_apply` is, by definition, split ; f on the residual ; add. -/
theorem apply_eq_split_add (wr ws : ℝ) (f : DOp V V) :
    residualApply wr ws f = (residualAdd wr ws).comp ((onFirst f).comp (residualSplit wr ws)) := rfl

/-- forward: `wr • f(x) + ws • x` -/
theorem apply_fwd (wr ws : ℝ) (f : DOp V V) (x : V) :
    (residualApply wr ws f).fwd x = wr • f.fwd x + ws • x := rfl

/-- Inside the branch the upstream gradient arrives unattenuated: `residual_add` hands `g` itself to
    both of its inputs (the weights act in the forward pass only). -/
theorem branch_grad_unattenuated (wr ws : ℝ) (x : V × V) (g : V) :
    (residualAdd wr ws).vjp x g = (g, g) := rfl

/-- …and the tau weighting is applied to the gradient where the branch rejoins `x`. -/
theorem split_vjp (wr ws : ℝ) (x : V) (g : V × V) :
    (residualSplit wr ws).vjp x g = wr • g.1 + ws • g.2 := rfl

/-- backward: `wr • f.vjp x g + ws • g` -/
theorem apply_vjp (wr ws : ℝ) (f : DOp V V) (x g : V) :
    (residualApply wr ws f).vjp x g = wr • f.vjp x g + ws • g := rfl

/-- With the weights of `tau`: `(x + tau·f(x)) / √(1+tau²)`. -/
theorem apply_fwd_tau (tau : ℝ) (f : DOp V V) (x : V) :
    (residualApply (residualWeights tau).1 (residualWeights tau).2 f).fwd x
      = (1 / Real.sqrt (1 + tau ^ 2)) • (x + tau • f.fwd x) := by
  have hd : (0 : ℝ) < 1 + tau * tau := by nlinarith [mul_self_nonneg tau]
  simp only [apply_fwd, residualWeights, nat_real, Nat.cast_one, powHalf_real, pow_two]
  rw [smul_add, smul_smul, add_comm]
  congr 2
  field_simp

/-- The two mixing weights always have squares summing to 1. -/
theorem weights_sq (tau : ℝ) : (residualWeights tau).1 ^ 2 + (residualWeights tau).2 ^ 2 = 1 := by
  have := C03.residual_unit_scale tau
  simpa using this
end algebra

section truegrad
variable {V : Type} [NormedAddCommGroup V] [InnerProductSpace ℝ V]

/-- **True input gradient.** If the branch is a true-gradient pair at `x`, the gradient the
    residual layer delivers to `x` is exactly the derivative of `wr • f(x) + ws • x`. -/
theorem apply_true_grad (wr ws : ℝ) (f : DOp V V) (x : V) (hf : DOp.TrueAt f x) :
    DOp.TrueAt (residualApply wr ws f) x := by
  unfold DOp.TrueAt at *
  exact (hf.const_smul wr).add ((IsVJPAt.id x).const_smul ws)

/-- composition of true-gradient pairs -/
theorem comp_true {f g : DOp V V} {x : V} (hf : DOp.TrueAt f x) (hg : DOp.TrueAt g (f.fwd x)) :
    DOp.TrueAt (g.comp f) x := by
  unfold DOp.TrueAt at *
  exact hf.comp hg

/-- **Stacks of any depth**, sequential: if every branch is a true-gradient pair everywhere, so is
    the whole stack (nesting is covered because a branch is itself an arbitrary `DOp`, e.g. another
    stack). -/
theorem stack_true_grad (layers : List (ℝ × ℝ × DOp V V))
    (h : ∀ l ∈ layers, ∀ x, DOp.TrueAt l.2.2 x) : ∀ x, DOp.TrueAt (residualStack layers) x := by
  induction layers with
  | nil => intro x; exact IsVJPAt.id x
  | cons l rest ih =>
    obtain ⟨wr, ws, f⟩ := l
    intro x
    have h1 : DOp.TrueAt (residualApply wr ws f) x := apply_true_grad wr ws f x (h (wr, ws, f) (by simp) x)
    have h2 := ih (fun l hl => h l (by simp [hl])) ((residualApply wr ws f).fwd x)
    exact comp_true h1 h2
end truegrad

section stackform
variable {V : Type} [AddCommGroup V] [Module ℝ V]
/-- forward of a sequential stack, unrolled one layer -/
theorem stack_cons_fwd (wr ws : ℝ) (f : DOp V V) (rest : List (ℝ × ℝ × DOp V V)) (x : V) :
    (residualStack ((wr, ws, f) :: rest)).fwd x = (residualStack rest).fwd (wr • f.fwd x + ws • x) := rfl
theorem stack_cons_vjp (wr ws : ℝ) (f : DOp V V) (rest : List (ℝ × ℝ × DOp V V)) (x g : V) :
    (residualStack ((wr, ws, f) :: rest)).vjp x g =
      (let g' := (residualStack rest).vjp (wr • f.fwd x + ws • x) g
       wr • f.vjp x g' + ws • g') := rfl
end stackform

/-! ### Non-vacuity: the identity branch on ℝ is a true-gradient pair -/
example (x : ℝ) : DOp.TrueAt (DOp.idOp : DOp ℝ ℝ) x := IsVJPAt.id x

end USProofs.C06
