/-
  "True gradient": a pull-back is the vector-Jacobian product of a map at a point when it is
  the adjoint of the Fréchet derivative there.  Used by C02, C05, C06.
-/
import Mathlib.Analysis.InnerProductSpace.Basic
import Mathlib.Analysis.Calculus.FDeriv.Add
import Mathlib.Analysis.Calculus.FDeriv.Comp
import Mathlib.Analysis.Calculus.FDeriv.Mul
import USModel

open USModel

namespace USProofs

variable {X Y Z : Type}
  [NormedAddCommGroup X] [InnerProductSpace ℝ X]
  [NormedAddCommGroup Y] [InnerProductSpace ℝ Y]
  [NormedAddCommGroup Z] [InnerProductSpace ℝ Z]

/-- `pull` is the VJP of `f` at `x`: `f` is differentiable at `x` and `pull` is the adjoint of
    its derivative. -/
def IsVJPAt (f : X → Y) (pull : Y → X) (x : X) : Prop :=
  ∃ f' : X →L[ℝ] Y, HasFDerivAt f f' x ∧ ∀ v g, inner ℝ (f' v) g = inner ℝ v (pull g)

theorem IsVJPAt.id (x : X) : IsVJPAt (fun y : X => y) (fun g => g) x :=
  ⟨ContinuousLinearMap.id ℝ X, hasFDerivAt_id x, fun _ _ => rfl⟩

theorem IsVJPAt.const_smul {f : X → Y} {pull : Y → X} {x : X} (h : IsVJPAt f pull x) (a : ℝ) :
    IsVJPAt (fun y => a • f y) (fun g => a • pull g) x := by
  obtain ⟨f', hf, hadj⟩ := h
  refine ⟨a • f', hf.const_smul a, fun v g => ?_⟩
  simp only [_root_.smul_apply, real_inner_smul_left, real_inner_smul_right, hadj]

theorem IsVJPAt.add {f h : X → Y} {p q : Y → X} {x : X} (hf : IsVJPAt f p x)
    (hh : IsVJPAt h q x) : IsVJPAt (fun y => f y + h y) (fun g => p g + q g) x := by
  obtain ⟨f', hf', ha⟩ := hf
  obtain ⟨h', hh', hb⟩ := hh
  refine ⟨f' + h', hf'.add hh', fun v g => ?_⟩
  simp only [_root_.add_apply, inner_add_left, inner_add_right, ha, hb]

theorem IsVJPAt.comp {f : X → Y} {g : Y → Z} {p : Y → X} {q : Z → Y} {x : X}
    (hf : IsVJPAt f p x) (hg : IsVJPAt g q (f x)) :
    IsVJPAt (fun y => g (f y)) (fun c => p (q c)) x := by
  obtain ⟨f', hf', ha⟩ := hf
  obtain ⟨g', hg', hb⟩ := hg
  refine ⟨g'.comp f', hg'.comp x hf', fun v c => ?_⟩
  simp only [ContinuousLinearMap.comp_apply, hb, ha]

/-- the pull-back of a true VJP pair is unique -/
theorem IsVJPAt.unique {f : X → Y} {p q : Y → X} {x : X} (hp : IsVJPAt f p x)
    (hq : IsVJPAt f q x) : p = q := by
  obtain ⟨f', hf', ha⟩ := hp
  obtain ⟨g', hg', hb⟩ := hq
  have : f' = g' := hf'.unique hg'
  subst this
  funext g
  apply ext_inner_left ℝ
  intro v
  rw [← ha, ← hb]

/-- a `DOp` is a true-gradient pair at `x` -/
def DOp.TrueAt (F : DOp X Y) (x : X) : Prop := IsVJPAt F.fwd (F.vjp x) x

end USProofs
