/-
  The real-number instance of the scalar layer: the number system the theorems are about.
-/
import Mathlib.Analysis.SpecialFunctions.Pow.Real
import Mathlib.Analysis.SpecialFunctions.Trigonometric.Basic
import Mathlib.Analysis.SpecialFunctions.Sqrt
import USModel

open USModel

noncomputable instance : Transc ℝ where
  sqrt := Real.sqrt
  exp := Real.exp
  log := Real.log
  pow := fun x y => x ^ y
  pi := Real.pi

namespace USProofs

/-! Small `Except` monad lemmas (the model's error handling is in `Except Err`). -/
@[simp] theorem except_bind_ok {ε α β : Type} (a : α) (f : α → Except ε β) :
    (Except.ok a >>= f) = f a := rfl
@[simp] theorem except_bind_error {ε α β : Type} (e : ε) (f : α → Except ε β) :
    ((Except.error e : Except ε α) >>= f) = Except.error e := rfl
@[simp] theorem except_pure {ε α : Type} (a : α) : (pure a : Except ε α) = Except.ok a := rfl

@[simp] theorem transc_sqrt (x : ℝ) : Transc.sqrt x = Real.sqrt x := rfl
@[simp] theorem transc_exp (x : ℝ) : Transc.exp x = Real.exp x := rfl
@[simp] theorem transc_log (x : ℝ) : Transc.log x = Real.log x := rfl
@[simp] theorem transc_pow (x y : ℝ) : Transc.pow x y = x ^ y := rfl
@[simp] theorem transc_pi : (Transc.pi : ℝ) = Real.pi := rfl

@[simp] theorem nat_real (n : Nat) : (USModel.nat n : ℝ) = (n : ℝ) := rfl
@[simp] theorem half_real : (USModel.half : ℝ) = 1 / 2 := by
  simp [USModel.half]

theorem powHalf_real (x : ℝ) : USModel.powHalf x = Real.sqrt x := by
  simp only [USModel.powHalf, transc_pow, half_real]
  rw [Real.sqrt_eq_rpow]

theorem powNegHalf_real {x : ℝ} (hx : 0 ≤ x) : USModel.powNegHalf x = 1 / Real.sqrt x := by
  simp only [USModel.powNegHalf, transc_pow, half_real]
  rw [Real.rpow_neg hx, Real.sqrt_eq_rpow]
  simp

end USProofs
