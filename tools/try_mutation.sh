#!/bin/bash
# tools/try_mutation.sh <patch.diff> <Cnn> [<Cnn> ...]   (env TIER=quick|thorough)
# Applies the patch to a scratch worktree of /repo (never to /repo itself), runs the given checks
# against it with evidence/replays redirected to a scratch directory, and removes the worktree.
set -u
patch=$(readlink -f "$1"); shift
wt=$(mktemp -d /tmp/verif_mut.XXXXXX)
rmdir "$wt"
git -C /repo worktree add -q --detach "$wt" HEAD || exit 2
trap 'git -C /repo worktree remove --force "$wt"; rm -rf "$wt.out"' EXIT
git -C "$wt" apply "$patch" 2>/dev/null || (cd "$wt" && patch -s -p1 --fuzz=3 < "$patch") || { echo "patch does not apply"; exit 2; }
cd "$(dirname "$0")/.."
for p in "$@"; do
  VERIF_REPO="$wt" VERIF_OUT="$wt.out" ./check "$p" --tier "${TIER:-quick}" 2>&1 | grep -E "VIOLATION|KNOWN-FINDING|^\[C|^  C|Error|error" | head -12
  echo "  -> $p exit=${PIPESTATUS[0]}"
done
