#!/bin/bash
# tools/soak.sh <tier> <seed...>  — run every claimed check on the unchanged tree with several seeds, in parallel,
# with evidence redirected to a scratch directory; prints one line per (property, seed) and lists non-zero exits.
tier=$1; shift
cd "$(dirname "$0")/.."
out=$(mktemp -d /tmp/verif_soak.XXXXXX)
props=$(python3 -c "import json; print(' '.join(c['property_id'] for c in json.load(open('MANIFEST.json'))['checks']))")
for s in "$@"; do for p in $props; do echo "$p $s"; done; done | \
  xargs -P ${SOAK_JOBS:-5} -L 1 bash -c 'VERIF_SEED=$1 VERIF_OUT='"$out"'/$0_$1 OMP_NUM_THREADS=2 timeout 3600 ./check $0 --tier '"$tier"' > '"$out"'/$0_$1.log 2>&1; echo "$0 seed=$1 exit=$? $(grep "^\[C" '"$out"'/$0_$1.log | tail -1 | cut -c1-140)"'
echo "--- non-zero:"; grep -L "" /dev/null; for f in "$out"/*.log; do :; done
echo "logs in $out"
