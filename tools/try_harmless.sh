#!/bin/bash
# tools/try_harmless.sh <patch.diff> — run ALL claimed checks (quick) against a behaviour-preserving patch in a scratch
# worktree; prints the checks that raise an alarm (there should be none).
patch=$(readlink -f "$1")
cd "$(dirname "$0")/.."
props=$(python3 -c "import json; print(' '.join(c['property_id'] for c in json.load(open('MANIFEST.json'))['checks']))")
tools/try_mutation.sh "$patch" $props 2>&1 | grep -E "exit=|VIOLATION" | grep -v "exit=0" 
echo "done $(basename $(dirname $patch))"
