#!/usr/bin/env python3
"""Regenerates MANIFEST.json from the table below; a property is claimed iff its harness module exists."""
import json
import os
from pathlib import Path

V = Path(__file__).resolve().parent.parent
P = {
 "C01": ("proof", "Lean theorems: for every reference op F and every configuration the modelled composite returns fwdScale • F(pre x), fwdScale is positive, data-free and 1 for losses/norms/embedding; argument validation rejects non-default unsupported args. Tied to the code by a differential correspondence over all 16 functions (shapes of distinct primes, broadcasting, dtypes, hyper-parameters, every constraint) plus a direct property oracle on the real functions.", "5/C01"),
 "C02": ("proof", "Lean theorems: the VJP of the modelled composite is bwdScale_i • F.vjp for every upstream gradient; scale_fwd/scale_bwd multiply only one pass for every real factor. Correspondence: gradients of every differentiable input vs autograd of the reference, one fitted positive scalar per input, equal across data/upstream draws and repeated calls.", "5/C02"),
 "C03": ("proof", "Lean theorems scale² × terms = 1 for every shape (ℝ), per op and role, plus the abstract second-moment lemma; term counts are validated against the PyTorch reference op on all-ones tensors, implementation scales against the model.", "5/C03"),
 "C04": ("other", "Partial: the library's scale functions are modelled and their structure proved (interpolation between limits, monotone, exact unit scale at the flat/one-hot/uniform limits); the numerical bands over continuous hyper-parameter ranges are supported by Gauss–Hermite quadrature / fixed-seed Monte-Carlo on the real functions, not by a theorem (Mathlib has no verified quadrature).", "5/C04"),
 "C05": ("proof", "Lean theorems about apply_constraint (None/\"\" identity, rule copies, unknown name ValueError), the mean rules (symmetric, between min and max, hmean ≤ gmean ≤ amean) and per-op equality of forward and constrained backward scales; constrained ops are true derivatives (HasFDerivAt). Correspondence over all rule functions, all names, all ops × constraints; gradcheck on the real ops.", "5/C05"),
 "C06": ("proof", "Lean theorems over an arbitrary branch DOp: weights square-sum to 1, forward closed form, unattenuated branch gradient, VJP closed form and true derivative, apply = split/f/add, stacks by induction. Correspondence on real tensors for tau in [1e-3,1e3], branch family, stacks of 1-8.", "5/C06"),
 "C07": ("proof", "Lean theorems for every depth L ≥ 1 and all real r, ρ > 0: contributions sum to 1, equal within attention / MLP, ratio ρ², mean/embedding r², tau² = exact rational tauSq, stack wiring. Correspondence: implementation tau vs model Float tau (≤4 ulp) and vs exact Rat tau² for every branch of every sampled stack (depths to 256), rule objects reused across depths; wiring observed through the real TransformerDecoder forward.", "5/C07"),
 "C08": ("other", "Partial: a table model of each module's forward-to-functional mapping, options and parameter tags with decidable theorems over the table; the weight of the claim is the correspondence (module vs functional call bitwise, vs torch.nn twin up to scalars, init statistics, tags, depth containers), exhaustive over options, sampled over values.", "5/C08"),
 "C09": ("proof", "Lean state machine of the tag/hook state of a parameter under copy/pickle/save/convert/load/transform operations; invariant proved for every operation and, by induction, every history. Correspondence: every history up to length 3-4 × tags × depths executed on real objects and compared with the model step by step.", "5/C09"),
 "C10": ("proof", "Lean theorems for all shapes of rank 1-3, tags, depths: LR factor formulas for Adam/SGD(None)/SGD(to_output_scale), rank ≥ 4 error. Correspondence: near-exhaustive grid of tag × rank × dims × depth × lr kind × group kind × optimizer, both readout settings.", "5/C10"),
 "C11": ("proof", "Lean theorems over a list/heap model of scaled_parameters: params preserved one per group in order, other keys carried, caller's cells unchanged, fresh lr cells for scaled groups, lr'·wd' = wd, zero-gradient SGD/AdamW step multiplies by (1−wd). Correspondence on random group lists with real optimizers.", "5/C11"),
 "C12": ("proof", "Lean theorem connecting the three models (forward scale, tag→LR rule, first Adam step): every output coordinate moves by exactly eta/sqrt(depth) for all fan_in, fan_out, kernel. Correspondence with real layers and the library's Adam/AdamW in float64.", "5/C12"),
 "C13": ("proof", "Lean bit-level model of FPFormat.quantise on float32 patterns with exact rationals. Theorems for the definition the driver executes, covering every finite input of every format: closed forms (normal range = the integer core on the input's own pattern for E ≤ 7 and E = 8; subnormal range = float32-rounded division, core, exact up-scaling), result is a format value, one of the two neighbours, |result − x| ≤ half a spacing (plus half a float32-subnormal ulp below the normal range: the double rounding), saturation incl. infinity, fixed points, idempotence and monotonicity on the whole magnitude range, odd symmetry and monotonicity for signed values, range properties = extremes of the value set. Correspondence: dense structured inputs for all 168 formats, twice (fresh process / after other library entry points), range properties as exact rationals (quick); all 2^32 patterns for E4M3/E5M2 (thorough).", "5/C13"),
 "C14": ("proof", "Same bit-level model with the stochastic offset; theorems count the draws that round up exactly (sr_count), tie the count of the END-TO-END quantiser to the integer core on the input's own pattern (normal range), on the float32-rounded down-scaled pattern (below it) and for E = 8, hence exact probability = value of the discarded bits when all bits are used and half-unit bounds otherwise; always one of the two neighbours, representable inputs never move. Correspondence with torch.randint substituted and all draws enumerated (also through quantise_fwd/quantise_bwd, several formats in one graph, other input dtypes).", "5/C14"),
 "C15": ("proof", "Lean graph model of the quantisation backend and straight-through quantisers; theorems: only mapped nodes change, spliced call well-formed, lossless identity, format tuple round-trip. Correspondence: backend on hand-built FX graphs vs model, and through the real Dynamo path vs a hand-quantised reference.", "5/C15"),
 "C16": ("proof", "Lean graph model of unit_scaling_backend pass by pass against a declarative recipe on the true ancestor relation. Correspondence: backend on generated FX graphs vs model; real unit_scale() through Dynamo vs an interpreter executing the recipe with the real U.* functions.", "5/C16"),
 "C17": ("proof", "Lean list model of the backend chain (apply_transform, _order_backends incl. its AttributeError guard, cached call); theorems for chains of ANY length accepted by the code: final list is a permutation of the applied backends (each exactly once), the others keep application order, last unit-scaling backend precedes last quantisation backend; the property's finite family as instances; repeat-stable, intermediate calls irrelevant, original untouched. Correspondence on real modules for all chains of the family (through Dynamo) and for random chains of up to 7 transforms (backend lists incl. the error branch).", "5/C17"),
 "C18": ("proof", "Lean model of tracking as identity DOp with logging; theorems: transparent for outputs and cotangents on chains; on DAGs of any size the table of logged gradients solves the adjoint equation of autograd's reverse sweep (seed plus every consumer's cotangent at every argument position) and is its only solution — i.e. the total gradient; metric inequalities. Correspondence: integer DAG programs through the model and the real tracking backend / track_scales, every logged statistic exact; bit-identical outputs/gradients with and without tracking; metrics vs statistics of independently captured tensors.", "5/C18"),
 "C19": ("proof", "Lean graph model of the three pruning helpers; theorems: exactly the documented nodes removed in order, no dangling reference, bypass at any argument depth, reachability among survivors preserved. Correspondence on tracked graphs of generated modules.", "5/C19"),
 "C20": ("other", "Partial: the library-side tracing branches of _ScaledGrad are modelled (fx forward agrees; fx backward is the forward scale; saved scale rounded to the input dtype); agreement with TorchDynamo/AOT autograd/Inductor is differential only (runtime not modelled).", "5/C20"),
}
TECH = {
 "proof": "Lean 4 theorems over a hand-written executable model + differential correspondence model↔code (native Lean driver) + direct property oracle on the real code",
 "other": "Lean 4 theorems for the modelled part + differential correspondence; remaining clause supported numerically/differentially only (stated in level text)",
}
NOTE = ("Trusted: Lean 4.33 kernel and Mathlib v4.33.0; axioms ⊆ {propext, Classical.choice, Quot.sound} audited by #print axioms on every run "
        "(no sorry/native_decide/bv_decide/own axioms); Lean compiler + Float=binary64/libm for the driver; the Python correspondence harness and its generators; "
        "PyTorch ops/autograd, CPython copy/pickle are parameters of the theorems. The model is hand-written: only the correspondence ties it to /repo.")

checks, na = [], []
for pid in sorted(P):
    level, text, ref = P[pid]
    if (V / "harness" / "props" / f"{pid.lower()}.py").exists():
        checks.append({
            "property_id": pid,
            "quick_cmd": f"./check {pid} --tier quick",
            "thorough_cmd": f"./check {pid} --tier thorough",
            "evidence_file": f"evidence/{pid}.json",
            "replay_cmd_template": f"./check {pid} --replay {{path}}",
            "engine": "lean-usmodel",
            "level_claimed": {"category": level, "text": text, "design_ref": f"DESIGN.md §{ref}"},
            "level_note": NOTE,
            "technique": TECH[level],
        })
    else:
        na.append({"property_id": pid, "reason": "not claimed yet: check under construction (design in DESIGN.md §5); the technique applies"})
m = {
 "version": 1,
 "setup_cmd": "cd lean && lake build",
 "hooks": {"guard": "UNIT_SCALING_VERIF", "enable": "none needed: the harness observes /repo from outside (monkey-patching, autograd hooks, direct backend calls); the guard name is reserved and unused",
           "baseline_off_cmd": "cd /repo && /venv/bin/python -m pytest -ra -q -p no:cacheprovider --timeout=900 --continue-on-collection-errors",
           "source_commits": [], "add_only": True},
 "engines": [{"name": "lean-usmodel", "path": "lean/", "serves_properties": [c["property_id"] for c in checks],
              "kind_free_text": "Lean 4 project: Mathlib-free executable model (USModel), proofs (USProofs, single Mathlib modules), native line-protocol driver (usdriver); Python correspondence harness in harness/"}],
 "checks": checks,
 "not_applicable": na,
 "notes": "Known findings: known_findings.json. fix: commits in /repo are listed there as fixed entries. See DESIGN.md.",
}
(V / "MANIFEST.json").write_text(json.dumps(m, indent=1, ensure_ascii=False) + "\n")
print("claimed", [c["property_id"] for c in checks])
