#!/bin/bash
# tools/matrix.sh — run every seeded change against the quick check of its property; writes seeded/MATRIX.md
cd "$(dirname "$0")/.."
tmp=$(mktemp -d /tmp/verif_matrix.XXXXXX)
for d in seeded/*/; do
  id=$(basename "$d"); prop=$(python3 -c "import json;print(json.load(open('$d/meta.json'))['property'])")
  echo "$id $prop"
done | xargs -P ${JOBS:-4} -L 1 bash -c 'tools/try_mutation.sh seeded/$0/patch.diff $1 > '"$tmp"'/$0.log 2>&1'
{
  echo "# Seeded changes vs checks (quick tier, seed 0)"
  echo
  echo "| seeded change | property | exit | violation keys reported |"
  echo "|---|---|---|---|"
  for d in seeded/*/; do
    id=$(basename "$d"); prop=$(python3 -c "import json;print(json.load(open('$d/meta.json'))['property'])")
    ex=$(grep -o "exit=[0-9]*" $tmp/$id.log | tail -1)
    keys=$(grep "^  C" $tmp/$id.log | sed 's/^  \(C[0-9A-Za-z:_.<>=, -]*\): .*/\1/' | cut -c1-70 | sort -u | head -4 | tr '\n' ';')
    nf=$(grep -c "no-failing-input-found" $tmp/$id.log)
    [ "$nf" != "0" ] && keys="$keys (no-failing-input-found)"
    echo "| $id | $prop | $ex | $keys |"
  done
} > seeded/MATRIX.md
rm -rf "$tmp"
grep -c "exit=1" seeded/MATRIX.md
