#!/bin/bash
# tools/cross_matrix.sh — every seeded change against EVERY check (quick tier): which properties alarm.
cd "$(dirname "$0")/.."
tmp=$(mktemp -d /tmp/verif_cross.XXXXXX)
props=$(python3 -c "import json; print(' '.join(c['property_id'] for c in json.load(open('MANIFEST.json'))['checks']))")
for d in seeded/*/; do id=$(basename "$d"); echo "$id"; done | \
  xargs -P ${JOBS:-4} -L 1 bash -c 'tools/try_mutation.sh seeded/$0/patch.diff '"$props"' > '"$tmp"'/$0.log 2>&1'
{
  echo "# Every seeded change against every check (quick tier, seed 0): properties whose check exits 1"
  echo
  echo "| seeded change | breaks (by construction) | checks that alarm |"
  echo "|---|---|---|"
  for d in seeded/*/; do
    id=$(basename "$d"); prop=$(python3 -c "import json;print(json.load(open('$d/meta.json'))['property'])")
    al=$(grep -o "\-> C[0-9]* exit=1" $tmp/$id.log | sed 's/-> //;s/ exit=1//' | tr '\n' ' ')
    e2=$(grep -o "\-> C[0-9]* exit=2" $tmp/$id.log | sed 's/-> //;s/ exit=2/(crash)/' | tr '\n' ' ')
    echo "| $id | $prop | $al $e2 |"
  done
} > seeded/CROSS_MATRIX.md
echo done; rm -rf "$tmp"
