#!/bin/bash
# tools/confirm_seed.sh <Cnn> <mK>  — independently confirm a seeded mutation from /tmp/wt/<Cnn>_out/<mK>:
# demo passes on the clean tree, fails with the patch, and the existing suite still passes with the patch.
# Result is stored under /verif/seeded/<Cnn>-<mK>/ (patch.diff, demo.py, meta.json incl. what was run).
set -u
id=$1; mk=$2
src=/tmp/wt/${id}_out/$mk
dst=/verif/seeded/${id}-$mk
[ -f "$src/patch.diff" ] || { echo "no patch for $id $mk"; exit 2; }
wt=$(mktemp -d /tmp/verif_seed.XXXXXX); rmdir "$wt"
git -C /repo worktree add -q --detach "$wt" HEAD || exit 2
trap 'git -C /repo worktree remove --force "$wt"' EXIT
export OMP_NUM_THREADS=2 PYTHONDONTWRITEBYTECODE=1
cd "$wt"
PYTHONPATH="$wt" timeout 600 /venv/bin/python "$src/demo.py" > "$wt.clean.log" 2>&1; rc_clean=$?
git apply "$src/patch.diff" 2>/dev/null || patch -s -p1 --fuzz=3 < "$src/patch.diff" || { echo "$id $mk: patch does not apply"; exit 2; }
PYTHONPATH="$wt" timeout 600 /venv/bin/python "$src/demo.py" > "$wt.mut.log" 2>&1; rc_mut=$?
PYTHONPATH="$wt" timeout 1500 /venv/bin/python -m pytest -q -p no:cacheprovider --timeout=900 unit_scaling/tests \
  --deselect unit_scaling/tests/test_analysis.py::test_example_seqs --deselect unit_scaling/tests/test_analysis.py::test_create_batch \
  --deselect unit_scaling/tests/test_analysis.py::test_example_batch --deselect unit_scaling/tests/test_analysis.py::test_visualiser \
  > "$wt.tests.log" 2>&1; rc_tests=$?
summary=$(tail -1 "$wt.tests.log")
mkdir -p "$dst"
cp "$src/patch.diff" "$src/demo.py" "$dst/"
python3 - "$src/meta.json" "$dst/meta.json" "$id" "$rc_clean" "$rc_mut" "$rc_tests" "$summary" <<'PY'
import json,sys
src,dst,pid,rc_clean,rc_mut,rc_tests,summary=sys.argv[1:8]
try: m=json.load(open(src))
except Exception: m={}
out={"property":pid,"summary":m.get("summary"),"files_touched":m.get("files_touched"),
     "needs_to_manifest":m.get("needs_to_manifest"),
     "confirmed":{"demo_clean_exit":int(rc_clean),"demo_mutated_exit":int(rc_mut),"tests_exit":int(rc_tests),"tests_summary":summary,
       "what_i_ran":"scratch worktree of /repo HEAD: demo.py (clean) -> git apply patch.diff -> demo.py -> pytest unit_scaling/tests (4 network tests deselected)"},
     "valid": int(rc_clean)==0 and int(rc_mut)!=0 and int(rc_tests)==0}
json.dump(out,open(dst,'w'),indent=1)
print(pid, dst, "valid" if out["valid"] else "INVALID", rc_clean, rc_mut, rc_tests, summary)
PY
rm -f "$wt.clean.log" "$wt.mut.log" "$wt.tests.log"
